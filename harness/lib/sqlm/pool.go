package sqlm

// helper constructors used by the pool and the generators

func col(name, typ string) Col  { return Col{Name: name, Type: typ} }
func ncol(name, typ string) Col { return Col{Name: name, Type: typ, Null: true} }
func (c Col) str(v string) Col  { c.Default = &Default{Kind: "str", V: v}; return c }
func (c Col) num(v string) Col  { c.Default = &Default{Kind: "num", V: v}; return c }
func (c Col) expr(v string) Col { c.Default = &Default{Kind: "expr", V: v}; return c }
func (c Col) virt(e string, refs ...string) Col {
	c.Gen = &Gen{Expr: e, Refs: refs}
	return c
}
func (c Col) stored(e string, refs ...string) Col {
	c.Gen = &Gen{Expr: e, Stored: true, Refs: refs}
	return c
}
func asc(cols ...string) []Part {
	var p []Part
	for _, c := range cols {
		p = append(p, Part{Col: c})
	}
	return p
}

// PoolEntry is a named base schema.
type PoolEntry struct {
	Name string
	S    Schema
	// Hot marks schemas that contain a feature hit by a pre-registered defect (composite primary key
	// whose order differs from the column order; UNIQUE constraints written inline). Monitors use the
	// flag only for reporting.
	Hot bool
}

// Pool returns the hand written base schemas. Together they contain every feature of the C01
// quantifier: all type spellings / affinities, NULL / NOT NULL, literal and expression defaults,
// VIRTUAL and STORED generated columns, no / single / single non-integer / composite / reordered
// composite / AUTOINCREMENT primary keys, plain / unique / multi-column / descending / partial /
// expression indexes and UNIQUE constraints, named and unnamed checks, self / cross / cyclic /
// composite foreign keys with all five actions, WITHOUT ROWID and STRICT.
func Pool() []PoolEntry {
	users := Table{Name: "users", Cols: []Col{
		col("id", "integer"),
		col("name", "text").str("anon"),
		ncol("age", "int"),
		ncol("score", "real").num("1.5"),
		ncol("created", "datetime").expr("CURRENT_TIMESTAMP"),
	}, PK: []string{"id"},
		Idx: []Idx{
			{Name: "users_name", Parts: asc("name")},
			{Name: "users_age_u", Unique: true, Parts: []Part{{Col: "age", Desc: true}, {Col: "name"}}},
		},
		Checks: []Check{{Name: "age_pos", Expr: "age > 0", Refs: []string{"age"}}}}
	posts := Table{Name: "posts", Cols: []Col{
		{Name: "id", Type: "integer", AutoInc: true},
		ncol("uid", "integer"),
		ncol("parent", "integer"),
		col("title", "varchar(100)"),
		ncol("len", "int").virt("length(title)", "title"),
		ncol("body", "blob"),
	}, PK: []string{"id"},
		Idx: []Idx{{Name: "posts_part", Parts: asc("uid"), Where: "uid > 0", Refs: []string{"uid"}}},
		FKs: []FK{
			{Name: "posts_user", Cols: []string{"uid"}, RefTable: "users", RefCols: []string{"id"}, OnDelete: "CASCADE"},
			{Name: "posts_parent", Cols: []string{"parent"}, RefTable: "posts", RefCols: []string{"id"}, OnDelete: "SET NULL", OnUpdate: "RESTRICT"},
		},
		Checks: []Check{{Expr: "length(title) > 0", Refs: []string{"title"}}}}
	kv := Table{Name: "kv", Cols: []Col{
		col("k", "text"), col("ns", "text"), ncol("v", "blob"), col("n", "integer").num("0"),
	}, PK: []string{"k", "ns"}, WithoutRowID: true, Strict: true}
	// reordered composite key: key order (ns, k) differs from the column order (k, ns)
	kvr := Table{Name: "kvr", Cols: []Col{
		col("k", "text"), col("ns", "integer"), ncol("v", "text"),
	}, PK: []string{"ns", "k"}}
	a := Table{Name: "a", Cols: []Col{col("id", "integer"), ncol("b_id", "integer")}, PK: []string{"id"},
		FKs: []FK{{Name: "a_b", Cols: []string{"b_id"}, RefTable: "b", RefCols: []string{"id"}}}}
	b := Table{Name: "b", Cols: []Col{col("id", "integer"), ncol("a_id", "integer"), ncol("s", "int").stored("id * 2", "id")}, PK: []string{"id"},
		FKs: []FK{{Name: "b_a", Cols: []string{"a_id"}, RefTable: "a", RefCols: []string{"id"}, OnUpdate: "CASCADE"}}}

	// one column per catalogue type, with a default where the class has one
	typed := Table{Name: "typed", PK: []string{"c0"}}
	for i, ti := range Types {
		c := Col{Name: "c" + itoa(i), Type: ti.SQL, Null: i > 0}
		if i%2 == 1 {
			c.Default = DefaultForType(ti.SQL, 0)
		}
		typed.Cols = append(typed.Cols, c)
	}

	docs := Table{Name: "docs", Cols: []Col{
		col("id", "integer"),
		col("title", "text"),
		ncol("lang", "varchar(100)").str("en"),
		ncol("rank", "real"),
		ncol("n", "numeric").expr("1 + 2"),
		ncol("slug", "text").stored("lower(title) || '-x'", "title"),
	}, PK: []string{"id"},
		Idx: []Idx{
			{Name: "docs_lower", Parts: []Part{{Expr: "lower(title)"}}, Refs: []string{"title"}},
			{Name: "docs_mixed", Unique: true, Parts: []Part{{Col: "lang"}, {Expr: "rank * 2", Desc: true}}, Refs: []string{"rank"}},
			{Name: "docs_pu", Unique: true, Parts: []Part{{Col: "title", Desc: true}}, Where: "lang IS NOT NULL", Refs: []string{"lang"}},
			{Name: "docs_slug", Parts: asc("slug")},
		},
		Checks: []Check{
			{Name: "rank_rng", Expr: "rank >= 0 OR rank IS NULL", Refs: []string{"rank"}},
			{Expr: "title <> ')'", Refs: []string{"title"}},
		}}

	// UNIQUE constraints (auto-indexes) and foreign keys that reference them
	acct := Table{Name: "acct", Cols: []Col{
		col("id", "integer"), col("email", "text"), col("org", "integer").num("1"), col("code", "text").str("x"),
	}, PK: []string{"id"},
		Idx: []Idx{
			{Name: "acct_email", Unique: true, Parts: asc("email"), Inline: true},
			{Name: "acct_org_code", Unique: true, Parts: asc("org", "code"), Inline: true},
		}}
	member := Table{Name: "member", Cols: []Col{
		col("id", "integer"), ncol("email", "text"), col("org", "integer").num("1"), col("code", "text").str("x"), ncol("boss", "integer"),
	}, PK: []string{"id"},
		FKs: []FK{
			{Name: "member_email", Cols: []string{"email"}, RefTable: "acct", RefCols: []string{"email"}, OnDelete: "SET NULL", OnUpdate: "CASCADE"},
			{Name: "member_org", Cols: []string{"org", "code"}, RefTable: "acct", RefCols: []string{"org", "code"}, OnDelete: "SET DEFAULT", OnUpdate: "NO ACTION"},
			{Name: "member_boss", Cols: []string{"boss"}, RefTable: "member", RefCols: []string{"id"}, OnDelete: "RESTRICT"},
		}}

	// no primary key at all, and a single non-integer primary key
	logt := Table{Name: "log", Cols: []Col{ncol("at", "datetime").expr("CURRENT_TIMESTAMP"), col("msg", "text"), ncol("lvl", "smallint").num("0")},
		Idx: []Idx{{Name: "log_lvl", Parts: []Part{{Col: "lvl", Desc: true}, {Col: "at"}}}}}
	tag := Table{Name: "tag", Cols: []Col{col("name", "varchar(100)"), ncol("color", "character(20)").str("red")}, PK: []string{"name"},
		Checks: []Check{{Name: "tag_color", Expr: "color NOT IN ('none', 'n/a')", Refs: []string{"color"}}}}

	// composite foreign key to a composite primary key, chain of three tables
	ord := Table{Name: "ord", Cols: []Col{col("shop", "integer"), col("num", "integer"), ncol("note", "text")}, PK: []string{"shop", "num"}}
	line := Table{Name: "line", Cols: []Col{col("id", "integer"), col("shop", "integer"), col("num", "integer"), col("qty", "integer").num("1"),
		ncol("total", "integer").virt("qty * 10", "qty")}, PK: []string{"id"},
		Idx:    []Idx{{Name: "line_ord", Parts: asc("shop", "num")}},
		FKs:    []FK{{Name: "line_ord_fk", Cols: []string{"shop", "num"}, RefTable: "ord", RefCols: []string{"shop", "num"}, OnDelete: "CASCADE", OnUpdate: "CASCADE"}},
		Checks: []Check{{Name: "qty_pos", Expr: "qty > 0", Refs: []string{"qty"}}, {Expr: "qty < 1000000000", Refs: []string{"qty"}}}}
	ship := Table{Name: "ship", Cols: []Col{col("id", "integer"), ncol("line_id", "integer"), ncol("w", "double precision")}, PK: []string{"id"},
		FKs: []FK{{Name: "ship_line", Cols: []string{"line_id"}, RefTable: "line", RefCols: []string{"id"}, OnDelete: "NO ACTION", OnUpdate: "SET NULL"}}}

	// STRICT rowid table, WITHOUT ROWID non-strict table
	meas := Table{Name: "meas", Cols: []Col{col("id", "integer"), col("x", "real").num("0.5"), ncol("label", "text").str("m"), ncol("raw", "blob"), ncol("cnt", "int")},
		PK: []string{"id"}, Strict: true,
		Idx:    []Idx{{Name: "meas_x", Parts: asc("x")}},
		Checks: []Check{{Name: "x_pos", Expr: "x >= 0", Refs: []string{"x"}}}}
	cfg := Table{Name: "cfg", Cols: []Col{col("section", "text"), col("skey", "text"), ncol("val", "text"), ncol("ver", "integer").num("1")},
		PK: []string{"section", "skey"}, WithoutRowID: true,
		Idx: []Idx{{Name: "cfg_val", Parts: asc("val"), Where: "val IS NOT NULL", Refs: []string{"val"}}}}

	S := func(ts ...Table) Schema {
		var s Schema
		for _, t := range ts {
			s.Tables = append(s.Tables, t.Clone())
		}
		return s
	}
	return []PoolEntry{
		{Name: "users", S: S(users)},
		{Name: "blog", S: S(users, posts)},
		{Name: "kv", S: S(kv)},
		{Name: "kvr", S: S(kvr), Hot: true},
		{Name: "cycle", S: S(a, b)},
		{Name: "typed", S: S(typed)},
		{Name: "docs", S: S(docs)},
		{Name: "acct", S: S(acct, member), Hot: true},
		{Name: "misc", S: S(logt, tag)},
		{Name: "orders", S: S(ord, line, ship)},
		{Name: "opts", S: S(meas, cfg)},
		{Name: "all", S: S(users, posts, kv, a, b, docs, logt, tag, ord, line, ship, meas, cfg)},
	}
}

func itoa(i int) string {
	if i == 0 {
		return "0"
	}
	s := ""
	for ; i > 0; i /= 10 {
		s = string(rune('0'+i%10)) + s
	}
	return s
}

// DefaultForType returns a literal default fitting the way Atlas writes defaults for the type: time,
// json, uuid and user-defined (ANY) types get string literals (Atlas quotes every literal of these types), the other
// classes get the canonical literal of their affinity (see DefaultFor).
func DefaultForType(typ string, n int) *Default {
	switch typ {
	case "date":
		return &Default{Kind: "str", V: []string{"2020-01-02", "1999-12-31"}[n&1]}
	case "datetime":
		return &Default{Kind: "str", V: []string{"2020-01-02 03:04:05", "1999-12-31 23:59:59"}[n&1]}
	case "json":
		return &Default{Kind: "str", V: []string{"{}", "[1]"}[n&1]}
	case "ANY":
		return &Default{Kind: "str", V: []string{"d", "it's"}[n&1]}
	case "uuid":
		return &Default{Kind: "str", V: []string{"00000000-0000-0000-0000-000000000000", "11111111-1111-1111-1111-111111111111"}[n&1]}
	}
	return DefaultFor(Affinity(typ), n)
}
