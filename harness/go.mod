module verifharness

go 1.22.12

require (
	ariga.io/atlas v0.0.0
	github.com/mattn/go-sqlite3 v1.14.24
)

replace ariga.io/atlas => /repo
