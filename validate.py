#!/opt/veriftools/pyvenv/bin/python
"""Validate MANIFEST.json and every evidence file against the given schemas (developer aid)."""
import json, sys, glob, jsonschema
ok = True
def chk(doc, schema, name):
    global ok
    try:
        jsonschema.validate(json.load(open(doc)), json.load(open(schema)))
        print("valid  ", name)
    except Exception as e:
        ok = False
        print("INVALID", name, str(e)[:300])
chk("MANIFEST.json", "/root/.vp/MANIFEST.schema.json", "MANIFEST.json")
for f in sorted(glob.glob("evidence/*.json")):
    chk(f, "/root/.vp/EVIDENCE.schema.json", f)
sys.exit(0 if ok else 1)
